"""Manifest families of the worldx3 explorer: a base Ninja manifest, a finite list of
variants of it (command tag changed => command line changed; input added / removed /
moved between explicit, implicit and order-only; statement added / removed / rewired),
the sources that `e:` edits, the outputs that `x:` deletes and the targets that `b:`
builds ('' = no target argument: the default statement, or all root outputs)."""
from nx import Edge as E, Manifest as M, retag, remove, add, replace, change


class Family:
    def __init__(self, fid, variants, sources, deletable, targets, quick=False, deep=False, extra_init=None, quick4=False):
        self.id = fid
        self.descs = variants
        self.by_id = {d.id: i for i, d in enumerate(variants)}
        if len(self.by_id) != len(variants):
            raise Exception("duplicate variant id in " + fid)
        self.sources = sources
        self.deletable = deletable
        self.targets = targets
        self.init = {s: s + ":0" for s in sources}
        self.init.update(extra_init or {})
        self.quick = quick
        self.quick4 = quick4     # explored to depth 4 already in the quick tier
        self.deep = deep         # explored to depth 5 in the thorough tier

    def slots(self, touches=False):
        out = []
        for s in self.sources:
            out.append((s, ["e:" + s] + (["t:" + s] if touches else [])))
        for o in self.deletable:
            out.append((o, ["x:" + o]))
        return out


def fam_chain():
    b = M("base", [E("C1", ["o1"], ["s1"]), E("C2", ["o2"], ["o1", "s2"])], default=["o2"])
    v = [b,
         retag(b, "tag-C1", "C1"),
         remove(b, "rm-C1", "C1"),                                               # o1 becomes a source
         change(b, "rewire-C2", "C2", "rewire", ins=["s1", "s2"]),
         add(b, "prod-s2", E("P", ["s2"], ["s1"]), "source-becomes-produced")]
    return Family("chain", v, ["s1", "s2"], ["o1", "o2"], ["", "o1"], quick=True, deep=True)


def fam_implicit():
    # C1 depends on s2 without reading it (pure `| s2`); C2 reads its implicit input s3 through -x
    b = M("base", [E("C1", ["o1"], ["s1"], imp=["s2"]), E("C2", ["o2"], ["o1"], imp=["s3"], extras=["s3"])], default=["o2"])
    v = [b,
         retag(b, "tag-C2", "C2"),
         change(b, "drop-imp", "C1", "drop-implicit", imp=[]),
         change(b, "add-imp", "C1", "add-implicit", imp=["s2", "s3"]),
         change(b, "imp-to-explicit", "C1", "implicit-becomes-explicit", ins=["s1", "s2"], imp=[])]
    return Family("implicit", v, ["s1", "s2", "s3"], ["o1", "o2"], ["", "o1"], quick=True)


def fam_newimp():
    # the base has NO implicit input; variants declare one (command line unchanged)
    b = M("base", [E("C1", ["o1"], ["s1"]), E("C2", ["o2"], ["o1"])], default=["o2"])
    v = [b,
         change(b, "add-imp", "C1", "add-implicit", imp=["s2"]),
         change(b, "add-imp-C2", "C2", "add-implicit", imp=["s2"]),
         change(b, "add-oo", "C1", "add-order-only", oo=["s2"]),
         add(change(b, "add-oo-gen", "C1", "x", oo=["g"]), "add-oo-gen", E("G", ["g"], ["s2"]), "add-order-only-on-new-edge"),
         add(change(b, "add-imp-gen", "C2", "x", imp=["g"]), "add-imp-gen", E("G", ["g"], ["s2"]), "add-implicit-on-new-edge")]
    return Family("newimp", v, ["s1", "s2"], ["o1", "o2", "g"], ["", "o1"], quick=True, quick4=True)


def fam_orderonly():
    # G generates g; C1 is merely ordered after it; C2 is ordered after it, reads it and reports it in a depfile
    b = M("base", [E("G", ["g"], ["s2"]),
                   E("C1", ["o1"], ["s1"], oo=["g"]),
                   E("C2", ["o2"], ["s1"], oo=["g"], extras=["g"], deps="gcc"),
                   E("ALL", ["all"], ["o1", "o2"], phony=True)], default=["all"])
    v = [b,
         retag(b, "tag-G", "G"),
         change(b, "oo-to-imp", "C1", "order-only-becomes-implicit", oo=[], imp=["g"]),
         change(b, "drop-oo", "C1", "drop-order-only", oo=[]),
         change(b, "oo-src", "C1", "add-order-only", oo=["g", "s3"])]
    return Family("orderonly", v, ["s1", "s2", "s3"], ["g", "o1", "o2"], ["", "o1"], quick=True)


def fam_oodep():
    # a command with an order-only input AND a dependency file that names something else: the order-only input
    # (a generated file or a source) must not trigger it although such a command can never take the "update if newer" shortcut
    b = M("base", [E("G", ["g"], ["s2"]),
                   E("C1", ["o1"], ["s1"], oo=["g"], extras=["s3"], deps="gcc"),
                   E("C2", ["o2"], ["o1"])], default=["o2"])
    v = [b,
         retag(b, "tag-G", "G"),
         change(b, "plain-depfile", "C1", "deps-gcc-becomes-depfile", deps="depfile"),
         change(b, "oo-src", "C1", "add-order-only", oo=["g", "s2"])]
    return Family("oodep", v, ["s1", "s2", "s3"], ["g", "o1"], ["", "o1"], quick=True)


def fam_depfile():
    b = M("base", [E("C1", ["o1"], ["s1"], extras=["s2"], deps="gcc"), E("C2", ["o2"], ["o1"])], default=["o2"])
    v = [b,
         retag(b, "tag-C1", "C1"),
         change(b, "plain-depfile", "C1", "deps-gcc-becomes-depfile", deps="depfile"),
         change(b, "declared", "C1", "discovered-becomes-explicit", ins=["s1", "s2"], extras=[], deps=None),
         change(b, "other-extra", "C1", "discovered-input-replaced", extras=["s3"])]
    return Family("depfile", v, ["s1", "s2", "s3"], ["o1", "o2"], ["", "o1"], quick=True, quick4=True)


def fam_gendep():
    # a generator statement that also reports discovered dependencies (the shape of a build.ninja regeneration rule): the
    # generator shortcut ("output newer than the declared inputs") knows nothing about the discovered input
    b = M("base", [E("G", ["o1"], ["s1"], generator=True, extras=["s2"], deps="gcc"), E("C2", ["o2"], ["o1"])], default=["o2"])
    v = [b,
         retag(b, "tag-C2", "C2"),
         change(b, "plain-depfile", "G", "deps-gcc-becomes-depfile", deps="depfile"),
         change(b, "non-gen", "G", "generator-dropped", generator=False)]
    return Family("gendep", v, ["s1", "s2"], ["o1", "o2"], ["", "o1"], quick=True, quick4=True)


def fam_latedecl():
    # the consumer (with a dependency file) is declared BEFORE the statements that produce its inputs: a phony group and a
    # restat command that re-runs without changing its output; rules are registered - and their stored results looked up -
    # in manifest order
    b = M("base", [E("C2", ["o2"], ["o1"], imp=["grp"], extras=["s2"], deps="gcc"),
                   E("GRP", ["grp"], ["s2"], phony=True),
                   E("C1", ["o1"], ["s1"], imp=["s3"], restat=True)], default=["o2"])
    v = [b,
         retag(b, "tag-C1", "C1"),
         change(b, "plain-depfile", "C2", "deps-gcc-becomes-depfile", deps="depfile"),
         change(b, "no-restat", "C1", "restat-dropped", restat=False)]
    return Family("latedecl", v, ["s1", "s2", "s3"], ["o1", "o2"], ["", "o1"], quick=True, quick4=True)


def fam_multi():
    b = M("base", [E("C1", ["o1", "o2"], ["s1"]), E("C2", ["o3"], ["o1"]), E("C3", ["o4"], ["o2", "s2"])],
          default=["o3", "o4"])
    v = [b,
         retag(b, "tag-C1", "C1"),
         change(b, "swap-outs", "C1", "output-order-changed", outs=["o2", "o1"]),
         change(b, "drop-o2", "C1", "output-dropped", outs=["o1"]),                 # o2 becomes a source
         add(change(b, "split", "C1", "split", outs=["o1"]), "split", E("C1b", ["o2"], ["s1"]), "output-gets-own-producer")]
    return Family("multi", v, ["s1", "s2"], ["o1", "o2", "o4"], ["", "o3"], quick=True)


def fam_phony():
    # grp groups a produced file and a source; C2 depends on the group implicitly, C3 order-only
    b = M("base", [E("C1", ["o1"], ["s1"]),
                   E("GRP", ["grp"], ["o1", "s2"], phony=True),
                   E("C2", ["o2"], ["s1"], imp=["grp"]),
                   E("C3", ["o3"], ["s1"], oo=["grp"]),
                   E("ALL", ["all"], ["o2", "o3"], phony=True)], default=["all"])
    v = [b,
         retag(b, "tag-C1", "C1"),
         change(b, "grp-drop-s2", "GRP", "phony-input-dropped", ins=["o1"]),
         change(b, "direct", "C2", "phony-replaced-by-its-inputs", imp=["o1", "s2"]),
         change(b, "c2-plain", "C2", "drop-implicit", imp=[])]
    return Family("phony", v, ["s1", "s2"], ["o1", "o2", "o3"], ["", "o2", "o3"], quick=True)


def fam_alias():
    # phony used purely as a target alias (nothing consumes a phony output): the usual `all`
    b = M("base", [E("C1", ["o1"], ["s1"]), E("C2", ["o2"], ["o1", "s2"]), E("C3", ["o3"], ["s2"]),
                   E("ALL", ["all"], ["o2", "o3"], phony=True), E("ONE", ["one"], ["o1"], phony=True)], default=["all"])
    v = [b,
         retag(b, "tag-C2", "C2"),
         change(b, "all-less", "ALL", "phony-input-dropped", ins=["o2"]),
         remove(b, "rm-C3", "C3").copy("rm-C3", "remove-edge")]
    v[3].edges = [e if e.name != "ALL" else e.copy(ins=["o2"]) for e in v[3].edges]
    return Family("alias", v, ["s1", "s2"], ["o1", "o2", "o3"], ["", "one", "o3"], quick=True)


def fam_restat():
    # C1 is a restat command that depends on s2 without reading it: editing s2 re-runs C1, o1 stays untouched
    b = M("base", [E("C1", ["o1"], ["s1"], imp=["s2"], restat=True), E("C2", ["o2"], ["o1"])], default=["o2"])
    v = [b,
         retag(b, "tag-C1", "C1"),
         retag(b, "tag-C2", "C2"),
         change(b, "no-restat", "C1", "restat-dropped", restat=False),
         change(b, "restat-C2", "C2", "restat-added", restat=True)]
    return Family("restat", v, ["s1", "s2"], ["o1", "o2"], ["", "o1"], quick=True)


def fam_generator():
    b = M("base", [E("G", ["o1"], ["s1"], generator=True), E("C2", ["o2"], ["o1", "s2"])], default=["o2"])
    v = [b,
         retag(b, "tag-C2", "C2"),
         change(b, "non-gen", "G", "generator-dropped", generator=False),
         change(b, "gen-imp", "G", "add-implicit", imp=["s2"])]
    return Family("generator", v, ["s1", "s2"], ["o1", "o2"], ["", "o1"], quick=True)


def fam_pool():
    b = M("base", [E("C1", ["o1"], ["s1"], pool="p1"), E("C2", ["o2"], ["s2"], pool="p1"), E("C3", ["o3"], ["o1", "o2"])],
          default=["o3"], pools=["p1"])
    v = [b,
         retag(b, "tag-C1", "C1"),
         change(b, "no-pool", "C1", "pool-dropped", pool=None),
         change(b, "pool-C3", "C3", "pool-added", pool="p1")]
    return Family("pool", v, ["s1", "s2"], ["o1", "o2", "o3"], ["", "o1"])


def fam_diamond():
    b = M("base", [E("C1", ["o1"], ["s1"]), E("C2", ["o2"], ["o1"]), E("C3", ["o3"], ["o1", "s2"]),
                   E("C4", ["o4"], ["o2", "o3"])], default=["o4"])
    v = [b,
         retag(b, "tag-C2", "C2"),
         remove(b, "rm-C3", "C3"),
         add(b, "add-C5", E("C5", ["o5"], ["o2", "s2"])),
         change(b, "rewire-C4", "C4", "rewire", ins=["o2", "s2"])]
    return Family("diamond", v, ["s1", "s2"], ["o1", "o3", "o4"], ["", "o2"])


def fam_roots():
    # no default statement: every root output is built (the tool computes the roots)
    b = M("base", [E("C1", ["o1"], ["s1"]), E("C2", ["o2"], ["o1"]), E("C3", ["o3"], ["s2"])])
    v = [b,
         retag(b, "tag-C1", "C1"),
         add(b, "add-C4", E("C4", ["o4"], ["o3", "o2"])),                       # the roots change
         remove(b, "rm-C2", "C2")]
    return Family("roots", v, ["s1", "s2"], ["o1", "o2", "o3"], ["", "o3"])


def fam_genheader():
    # the canonical generated-header pattern: order-only on the generator + depfile naming the header,
    # plain `depfile` (no deps = gcc)
    b = M("base", [E("G", ["g"], ["s2"]),
                   E("C1", ["o1"], ["s1"], oo=["g"], extras=["g"], deps="depfile"),
                   E("C2", ["o2"], ["o1"])], default=["o2"])
    v = [b,
         retag(b, "tag-G", "G"),
         change(b, "g-implicit", "C1", "discovered-becomes-implicit", oo=[], imp=["g"], deps=None),
         change(b, "gcc", "C1", "depfile-becomes-deps-gcc", deps="gcc"),
         change(b, "no-read", "C1", "discovered-input-dropped", extras=[], deps=None)]
    return Family("genheader", v, ["s1", "s2"], ["g", "o1", "o2"], ["", "o1"])


def fam_depmulti():
    # several outputs + discovered dependency; two discovered files
    b = M("base", [E("C1", ["o1", "o2"], ["s1"], extras=["s2", "s3"], deps="gcc"), E("C2", ["o3"], ["o2"])], default=["o3"])
    v = [b,
         retag(b, "tag-C1", "C1"),
         change(b, "one-extra", "C1", "discovered-input-dropped", extras=["s2"]),
         change(b, "single", "C1", "output-dropped", outs=["o2"])]
    return Family("depmulti", v, ["s1", "s2", "s3"], ["o1", "o2", "o3"], ["", "o1"])


def fam_impprod():
    # implicit input that is itself produced, read through -x
    b = M("base", [E("C1", ["o1"], ["s1"]), E("C2", ["o2"], ["s2"], imp=["o1"], extras=["o1"]), E("C3", ["o3"], ["o2"])],
          default=["o3"])
    v = [b,
         retag(b, "tag-C1", "C1"),
         change(b, "explicit", "C2", "implicit-becomes-explicit", ins=["s2", "o1"], imp=[], extras=[]),
         remove(b, "rm-C1", "C1"),
         change(b, "imp-src", "C2", "rewire", imp=["s1"], extras=["s1"])]
    return Family("impprod", v, ["s1", "s2"], ["o1", "o2"], ["", "o2"])


def fam_oochain():
    # order-only through a phony group and through a chain
    b = M("base", [E("G1", ["g1"], ["s1"]), E("G2", ["g2"], ["g1"]),
                   E("GRP", ["gens"], ["g1", "g2"], phony=True),
                   E("C1", ["o1"], ["s2"], oo=["gens"]), E("C2", ["o2"], ["o1"], oo=["g2"])], default=["o2"])
    v = [b,
         retag(b, "tag-G1", "G1"),
         change(b, "oo-direct", "C1", "phony-replaced-by-its-inputs", oo=["g1", "g2"]),
         change(b, "drop-oo", "C2", "drop-order-only", oo=[])]
    return Family("oochain", v, ["s1", "s2"], ["g1", "g2", "o1"], ["", "o1"])


def fam_restatchain():
    b = M("base", [E("C1", ["o1"], ["s1"], imp=["s2"], restat=True), E("C2", ["o2"], ["o1"], imp=["s2"], restat=True),
                   E("C3", ["o3"], ["o2"])], default=["o3"])
    v = [b,
         retag(b, "tag-C2", "C2"),
         change(b, "drop-imp", "C2", "drop-implicit", imp=[]),
         change(b, "no-restat", "C1", "restat-dropped", restat=False)]
    return Family("restatchain", v, ["s1", "s2"], ["o1", "o2", "o3"], ["", "o2"])


def fam_fanin():
    b = M("base", [E("C1", ["o1"], ["s1"]), E("C2", ["o2"], ["s2"]), E("C3", ["o3"], ["o1", "o2"])], default=["o3"])
    v = [b,
         retag(b, "tag-C3", "C3"),
         remove(b, "rm-C2", "C2"),
         change(b, "rewire-C3", "C3", "rewire", ins=["o1", "s2"]),
         change(b, "swap-ins", "C3", "input-order-changed", ins=["o2", "o1"])]
    return Family("fanin", v, ["s1", "s2"], ["o1", "o2", "o3"], ["", "o1"])


def fam_selfgen():
    # an input becomes produced and back
    b = M("base", [E("C1", ["o1"], ["s1"]), E("C2", ["o2"], ["s2"])], default=["o1", "o2"])
    v = [b,
         add(b, "gen-s2", E("G", ["s2"], ["o1"]), "source-becomes-produced"),
         add(b, "gen-s1", E("G", ["s1"], ["s2"]), "source-becomes-produced"),
         retag(b, "tag-C2", "C2")]
    return Family("selfgen", v, ["s1", "s2"], ["o1", "o2"], ["", "o2"])


def fam_mixed():
    # one statement with every input kind, several outputs, restat and a depfile
    b = M("base", [E("G", ["g"], ["s3"]),
                   E("C1", ["o1", "o2"], ["s1"], imp=["s2"], oo=["g"], extras=["g"], deps="gcc", restat=True),
                   E("C2", ["o3"], ["o1"]), E("C3", ["o4"], ["o2"], imp=["s2"])], default=["o3", "o4"])
    v = [b,
         retag(b, "tag-C1", "C1"),
         retag(b, "tag-G", "G"),
         change(b, "no-restat", "C1", "restat-dropped", restat=False),
         change(b, "drop-imp", "C1", "drop-implicit", imp=[])]
    return Family("mixed", v, ["s1", "s2", "s3"], ["g", "o1", "o2"], ["", "o3"], deep=False)


def fam_phonychain():
    # alias of an alias, consumed implicitly
    b = M("base", [E("C1", ["o1"], ["s1"]), E("A", ["a"], ["o1"], phony=True), E("B", ["b"], ["a", "s2"], phony=True),
                   E("C2", ["o2"], ["s1"], imp=["b"])], default=["o2"])
    v = [b,
         retag(b, "tag-C1", "C1"),
         change(b, "b-direct", "B", "phony-replaced-by-its-inputs", ins=["o1", "s2"])]
    return Family("phonychain", v, ["s1", "s2"], ["o1", "o2"], ["", "a"])


def fam_twotargets():
    # two targets sharing a sub-graph; default names only one of them
    b = M("base", [E("C1", ["o1"], ["s1"]), E("C2", ["o2"], ["o1", "s2"]), E("C3", ["o3"], ["o1"])], default=["o2"])
    v = [b,
         retag(b, "tag-C1", "C1"),
         change(b, "rewire-C3", "C3", "rewire", ins=["s2"]),
         remove(b, "rm-C1", "C1")]
    return Family("twotargets", v, ["s1", "s2"], ["o1", "o2", "o3"], ["", "o3"], deep=True)


def all_families():
    return [fam_chain(), fam_implicit(), fam_newimp(), fam_orderonly(), fam_oodep(), fam_depfile(), fam_gendep(), fam_latedecl(), fam_multi(), fam_phony(), fam_alias(),
            fam_restat(), fam_generator(), fam_pool(), fam_diamond(), fam_roots(), fam_genheader(), fam_depmulti(),
            fam_impprod(), fam_oochain(), fam_restatchain(), fam_fanin(), fam_selfgen(), fam_mixed(), fam_phonychain(),
            fam_twotargets()]

#!/usr/bin/python3
"""worldx3: bounded-exhaustive exploration of on-disk histories through the real
`llbuild ninja build` tool.  Decides C18 ("Ninja builds converge to the clean-build
state and do no unnecessary work").

  worldx3.py --prop C18 --tier quick|thorough --shard I --nshards N --out FILE
             --seed S --budget SEC [--replay-spec SPEC] [--x-ninja 1]

Replay specs
  C18h|<family>|<mode>|<history>                         general history, last build judged
  C18f|<family>|<variant>|<mode>|<k>|<cmd>|<kind>|<target>|<prefix history>
                                                         failure injection: build with <cmd> failing, build
                                                         again, repair, build, null build
A trailing " #<class>" restricts the replay's verdict to that violation class.
Modes: j1db j4db j1nodb j4nodb (--jobs 1|4, build.db | --no-db).
History events: e:<src> rewrite a source (new content, fresh logical mtime), t:<src> touch it
(fresh mtime only), x:<out> delete an output file, D:<variant> switch the manifest, b:<target>
build (b: alone = no target argument).
--x-ninja 1 (replay only) additionally replays the history with /usr/bin/ninja and prints what
it executed: a second opinion for triage, never part of the verdict.
"""
import itertools
import os
import re
import sys
import traceback

sys.dont_write_bytecode = True
sys.path.insert(0, os.path.dirname(os.path.abspath(__file__)))
import nx  # noqa: E402
from nx import wx, NinjaSandbox, NinjaOracle, HarnessError, mode_db  # noqa: E402
from wx import Result, Args  # noqa: E402
import nfamilies as F  # noqa: E402

PROP = "C18"
ORACLE = NinjaOracle()

ASSUMPTIONS = [
    "commands are `ncmd cat` invocations run through /bin/sh -c: deterministic functions of the files they declare or "
    "report; all file times come from the logical clock (base 1e9 s + counter*1 ms, shared by the driver and the "
    "commands), so every edit is stat-observable and strictly newer than everything written before it",
    "every build is a new llbuild process; db modes use --db build.db in the sandbox, nodb modes use --no-db",
    "the reference evaluator is cross-checked (success, contents of every reachable output, set of executed commands) "
    "against a real clean build (fresh directory, --no-db, --jobs 1) once per (manifest text, target, source state); a "
    "disagreement aborts the run as a harness error",
    "--no-db keeps no memory of earlier builds (every non-generator command runs in every build; real Ninja without "
    ".ninja_log behaves the same), so in the nodb modes only convergence of contents, ordering and the failure "
    "semantics are asserted: no null-build, rerun-without-cause, order-only or command-change claims",
    "only the events of the statement are generated: e:/t: are applied only to paths that no statement of the current "
    "manifest produces, x: only to file outputs of the current manifest (tampering with outputs is not in C18)",
    "the command line of a `generator = 1` statement is never changed by a variant (Ninja exempts generator rules from "
    "command-line tracking, which would contradict convergence to the clean-build contents)",
    "events within one segment between two builds commute (each carries a stamp newer than every output of the earlier "
    "builds, which is all a newer-than comparison of an output against its inputs can see), so one order per set of "
    "events is explored; a second event on the same file within a segment is subsumed by the later one",
    "a command that re-runs although its restat producer left the input untouched is NOT reported (the statement does not "
    "demand restat pruning); prunings are only counted",
    "pool depth, --strict, -k other than 1 and 0, manifest self-regeneration (`build build.ninja: ...`), rspfile, "
    "`deps = msvc`, dyndep, subninja/include and console pool are not explored",
]


# --------------------------------------------------------------------------
class World:
    def __init__(self, fam, mode, tool="llbuild"):
        self.fam = fam
        self.mode = mode
        self.sb = NinjaSandbox()
        self.sb.tool = tool
        self.sb.extra_args = []
        self.cur = 0
        for p, c in fam.init.items():
            self.sb.write(p, c)
        self.sb.write("build.ninja", fam.descs[0].ninja())
        self.step = 0
        self.touch = {}        # path -> step of the last modification (driver edit or command execution)
        self.lastrun = {}      # edge name -> (step, Edge) of its last successful execution
        self.lastfail = {}     # edge name -> step of its last failed execution
        self.build_log = []    # (step, manifest, rc, target)
        self.ctl = {}
        paths = []
        for d in fam.descs:
            for p in d.all_paths():
                if p not in paths:
                    paths.append(p)
            for e in d.edges:
                if e.deps and e.depfile() not in paths:
                    paths.append(e.depfile())
        self.paths = paths

    @property
    def desc(self):
        return self.fam.descs[self.cur]

    def close(self):
        self.sb.destroy()

    def set_ctl(self, entries):
        self.ctl = dict(entries)
        self.sb.set_ctl(entries)

    def edit(self, ev):
        kind, arg = ev.split(":", 1)
        sb = self.sb
        self.step += 1
        if kind == "e":
            cur = sb.read(arg)
            m = re.match(r"^(.*):(\d)$", cur or "")
            if m and m.group(1) == arg:
                sb.write(arg, "%s:%d" % (arg, (int(m.group(2)) + 1) % 10))
            else:
                sb.write(arg, arg + ":0")
            self.touch[arg] = self.step
        elif kind == "t":
            if sb.read(arg) is None:
                sb.write(arg, arg + ":0")
            else:
                sb.stamp(arg)
            self.touch[arg] = self.step
        elif kind == "x":
            if sb.delete(arg):
                self.touch[arg] = self.step
        elif kind == "D":
            self.cur = self.fam.by_id[arg]
            sb.write("build.ninja", self.desc.ninja())
        else:
            raise HarnessError("bad event " + ev)

    def build(self, target, judge=True):
        m = self.desc
        ex = ORACLE.expect(m, self.sb, target) if judge else None
        before = {p: self.sb.mtime(p) for p in self.paths}
        touch_before = dict(self.touch)
        lastrun_before = dict(self.lastrun)
        lastfail_before = dict(self.lastfail)
        rc, out, ran_tags = self.sb.build(target, self.mode)
        self.step += 1
        for p in self.paths:
            if self.sb.mtime(p) != before[p]:
                self.touch[p] = self.step
        tags = m.by_tag()
        ran = []
        for t in ran_tags:
            if t not in tags:
                raise HarnessError("exec.log names %r which the current manifest %s does not define" % (t, m.id))
            ran.append(tags[t].name)
        if len(set(ran)) != len(ran):
            dup = sorted({n for n in ran if ran.count(n) > 1})
        else:
            dup = []
        failed = [n for n in ran if m.edge(n).tag in self.ctl]
        for n in ran:
            if n in failed:
                self.lastfail[n] = self.step
            else:
                self.lastrun[n] = (self.step, m.edge(n).copy())
        self.build_log.append((self.step, m, rc, target))
        obs = {"rc": rc, "out": out, "ran": ran, "expect": ex, "wrong": [], "target": target, "desc": m, "dup": dup,
               "failed": failed, "touch_before": touch_before, "lastrun_before": lastrun_before, "lastfail_before": lastfail_before, "step": self.step}
        if judge and rc == 0 and ex.ok:
            for name in ex.order:
                e = m.edge(name)
                if e.phony:
                    continue
                for o in e.outs:
                    got = self.sb.read(o)
                    if got != ex.outputs[o]:
                        obs["wrong"].append((o, name, ex.outputs[o], got))
        return obs

    def touched_since(self, path, step0):
        return self.touch.get(path, 0) > step0

    # ---- cause analysis ---------------------------------------------------
    def justified(self, obs, e):
        """Is there any reason at all (liberal) for E having executed in the build OBS?"""
        m = obs["desc"]
        lr = obs["lastrun_before"].get(e.name)
        if lr is None:
            return "never-ran-before"
        step0, e0 = lr
        if obs["lastfail_before"].get(e.name, 0) > step0:
            return "failed-last-time"
        if e0.deftext() != e.deftext():
            return "statement-changed"
        for s, d, rc, t in self.build_log[:-1]:
            if s > step0:
                if rc != 0:
                    return "failed-build-in-between"
                if not d.has(e.name) or d.edge(e.name).deftext() != e0.deftext():
                    return "statement-differed-in-between"
        # inputs: touched by the driver or by a command of this very build; outputs (and the depfile): only what
        # happened BEFORE this build counts (the command rewrites them itself when it runs)
        if any(self.touched_since(p, step0) for p in m.file_inputs(e.ins + e.imp) + e.extras):
            return "input-touched"
        if any(obs["touch_before"].get(p, 0) > step0 for p in e.outs + ([e.depfile()] if e.deps else [])):
            return "output-touched"
        for n in m.file_inputs(e.ins + e.imp) + e.extras:
            p = m.producer(n)
            if p is not None and p.name in obs["ran"]:
                return "producer-ran"    # a restat producer that left the file untouched: not asserted
        return None

    def order_only_cause(self, obs, e):
        m = obs["desc"]
        step0 = obs["lastrun_before"][e.name][0]
        for n in m.file_inputs(e.oo):
            if self.touched_since(n, step0):
                return True
            p = m.producer(n)
            if p is not None and p.name in obs["ran"]:
                return True
        return False

    def must_run_causes(self, obs, e):
        """Causes, in the statement's terms, for which E had to execute in the build OBS (db modes)."""
        m = obs["desc"]
        lr = obs["lastrun_before"].get(e.name)
        if lr is None:
            return ["never-ran"]
        step0, e0 = lr
        c = []
        if obs["lastfail_before"].get(e.name, 0) > step0:
            c.append("failed-last-time")
        if e0.command() != e.command() and not e.generator and not e0.generator:
            c.append("command-changed")
        for n in e.ins:
            if self.touched_since(n, step0):
                c.append("explicit-input-changed")
                break
        old_imp = set(self.fam_file_inputs(e0.imp, e0))
        for n in m.file_inputs(e.imp):
            if self.touched_since(n, step0) and self.sb.mtime(n) is not None:
                c.append("implicit-input-changed" if n in old_imp else "implicit-input-declared-after-last-run-changed")
                break
        if e.deps and e0.deps:
            for x in e.extras:
                if x in e0.extras and x not in e.imp and self.touched_since(x, step0):
                    c.append("depfile-input-changed")
                    break
        if any(self.sb.mtime(o) is None for o in e.outs):
            c.append("output-deleted")
        return c

    def fam_file_inputs(self, nodes, e0):
        """Phony expansion of an old edge's inputs using whichever variant defined that old edge."""
        for d in self.fam.descs:
            if d.has(e0.name) and d.edge(e0.name).deftext() == e0.deftext():
                return d.file_inputs(nodes)
        return list(nodes)


def edge_kind(m, e):
    k = e.kind()
    if any(m.producer(n) is not None and m.producer(n).phony for n in e.ins + e.imp):
        k += "-with-phony-input"
    elif any(m.producer(n) is not None and m.producer(n).phony for n in e.oo):
        k += "-with-phony-order-only"
    return k


def seg_kinds(fam, h):
    """Kinds of the events since the previous build of history H (whose last event is a build)."""
    seg = []
    for ev in reversed(h[:-1]):
        if ev.startswith("b:"):
            break
        seg.append(ev)
    ks = set()
    for ev in seg:
        if ev[0] == "D":
            ks.add("D." + fam.descs[fam.by_id[ev[2:]]].kind)
        else:
            ks.add(ev[0])
    return "+".join(sorted(ks)) or "nothing"


def d_kinds(fam, h):
    ks = sorted({fam.descs[fam.by_id[ev[2:]]].kind for ev in h if ev[0] == "D"})
    return "+".join(ks) or "no-manifest-edit"


# --------------------------------------------------------------------------
# history enumeration (normal form: within a segment between builds at most one event per
# path and at most one D:, in a fixed order, D: last)
def segment_choices(fam, k, cur, touches):
    m = fam.descs[cur]
    slots = []
    for path, evs in fam.slots(touches):
        p = m.producer(path)
        if evs[0][0] == "x":
            if p is not None and not p.phony:
                slots.append(evs)         # only outputs of the current manifest are deleted
        elif p is None:
            slots.append(evs)             # only files nothing produces are edited
    ds = ["D:" + d.id for i, d in enumerate(fam.descs) if i != cur]
    if ds:
        slots.append(ds)
    for combo in itertools.combinations(range(len(slots)), k):
        for evs in itertools.product(*[slots[i] for i in combo]):
            yield list(evs)


def histories(fam, depth, touches=False):
    """All normal-form histories of exactly DEPTH events that end in a build."""
    def rec(remaining, cur):
        if remaining == 0:
            yield []
            return
        for k in range(0, remaining):
            for seg in segment_choices(fam, k, cur, touches):
                ncur = cur
                for e in seg:
                    if e.startswith("D:"):
                        ncur = fam.by_id[e[2:]]
                for t in fam.targets:
                    if t and fam.descs[ncur].producer(t) is None:
                        continue          # the variant does not define this target
                    for rest in rec(remaining - k - 1, ncur):
                        yield seg + ["b:" + t] + rest
    return rec(depth, 0)


def well_formed(fam, h):
    """Is H inside the generated space (used by the shrinker)?"""
    cur = 0
    seen = set()
    for ev in h:
        kind, arg = ev.split(":", 1)
        m = fam.descs[cur]
        if kind == "b":
            seen = set()
            if arg and m.producer(arg) is None:
                return False
            continue
        if ev in seen:
            return False
        seen.add(ev)
        if kind == "D":
            if arg not in fam.by_id or fam.by_id[arg] == cur:
                return False
            cur = fam.by_id[arg]
        elif kind in "et":
            if m.producer(arg) is not None:
                return False
        elif kind == "x":
            p = m.producer(arg)
            if p is None or p.phony:
                return False
    return bool(h) and h[-1].startswith("b:")


def spec_h(fam, mode, h):
    return "C18h|%s|%s|%s" % (fam.id, mode, " ".join(h))


# --------------------------------------------------------------------------
def judge_build(w, obs, h, what_prefix, add, res=None):
    """All checks on one judged build.  add(cls, text) records a violation.  Returns True if the
    build ended in the converged state (so that a null build is meaningful)."""
    fam, m, ex = w.fam, obs["desc"], obs["expect"]
    db = mode_db(w.mode)
    ran = obs["ran"]
    ok = True
    if obs["dup"]:
        add("C18.command-executed-twice-in-one-build", "%s: %s executed more than once in one build (ran: %s)" % (
            what_prefix, ",".join(obs["dup"]), ",".join(ran)))
        ok = False
    # ordering: a command never starts before a producer of one of its inputs that ran in the same build
    pos = {n: i for i, n in enumerate(ran)}
    for n in ran:
        e = m.edge(n)
        for kind, nodes in (("explicit", e.ins), ("implicit", e.imp), ("order-only", e.oo)):
            for i in m.file_inputs(nodes):
                p = m.producer(i)
                if p is not None and not p.phony and p.name in pos and pos[p.name] > pos[n]:
                    add("C18.command-ran-before-its-%s-input-was-rebuilt" % kind,
                        "%s: %s started before %s, which produces its %s input %s (execution order: %s)" % (
                            what_prefix, n, p.name, kind, i, ",".join(ran)))
                    ok = False
    if not ex.ok:
        if obs["rc"] == 0:
            prev_failed = len(w.build_log) >= 2 and w.build_log[-2][2] != 0 and seg_kinds(fam, h) == "nothing"
            add("C18.success-right-after-failed-build-where-clean-build-still-fails" if prev_failed else
                "C18.success-where-clean-build-fails-after-" + seg_kinds(fam, h),
                "%s: the build succeeded although a clean build fails (%s)" % (what_prefix, ex.why))
        return False
    if obs["rc"] != 0:
        add("C18.build-fails-where-clean-build-succeeds-after-" + seg_kinds(fam, h),
            "%s: exit status %d although a clean build succeeds: %s" % (what_prefix, obs["rc"], last_lines(obs["out"])))
        return False
    if obs["wrong"]:
        o, name, want, got = obs["wrong"][0]
        e = m.edge(name)
        state = "missing" if got is None else "stale"
        if name in ran:
            cls = "C18.other-%s-output-although-its-command-ran" % state
            why = "its command %s ran in this build" % name
        else:
            causes = w.must_run_causes(obs, e)
            newly = newly_declared_route(w, obs, o)
            if newly:
                cls = "C18.newly-declared-%s-input-not-brought-up-to-date" % newly[0]
                causes = causes + ["%s now declares %s as %s input but was not re-scanned" % (newly[1], newly[2], newly[0])]
            elif causes == ["never-ran"]:
                cls = "C18.other-%s-output-its-command-never-ran" % state
            elif causes:
                cls = "C18.%s-output-after-%s" % (state, "+".join(causes))
            else:
                cls = "C18.other-%s-output-without-direct-cause" % state
            why = "its command %s (%s) did not run; causes to run: %s" % (name, edge_kind(m, e), ",".join(causes) or "none found")
        add(cls, "%s: after a successful build output %s is %r, a clean build gives %r; %s; commands run by that build: %s" % (
            what_prefix, o, got, want, why, ",".join(ran) or "none"))
        ok = False
    if db:
        # lower bounds that contents alone cannot show
        for name in ex.order:
            e = m.edge(name)
            if e.phony or name in ran or name not in obs["lastrun_before"]:
                continue
            if res is not None:
                res.count("commands_left_alone_and_checked_for_a_must_run_cause")
            if any(wr[1] == name for wr in obs["wrong"]):
                continue                  # already reported through its contents
            causes = w.must_run_causes(obs, e)
            if "failed-last-time" in causes:
                continue                  # reported as C18.failed-not-retried-* by the failure checks
            table = [("command-changed", "C18.command-change-not-rerun"),
                     ("implicit-input-changed", "C18.implicit-input-not-triggering"),
                     ("implicit-input-declared-after-last-run-changed", "C18.implicit-input-declared-after-last-run-not-triggering"),
                     ("depfile-input-changed", "C18.depfile-input-not-triggering"),
                     ("explicit-input-changed", "C18.explicit-input-not-triggering")]
            for cause, cls in table:
                if cause in causes:
                    add(cls, "%s: %s (%s) did not execute although: %s (commands run: %s)" % (
                        what_prefix, name, edge_kind(m, e), ",".join(causes), ",".join(ran) or "none"))
                    ok = False
                    break
        # upper bounds
        for name in ran:
            e = m.edge(name)
            why_ok = w.justified(obs, e)
            if res is not None:
                res.counters.setdefault("executions_judged_by_reason", {})
                k = why_ok or "NONE(violation)"
                res.counters["executions_judged_by_reason"][k] = res.counters["executions_judged_by_reason"].get(k, 0) + 1
                if name in obs["lastrun_before"]:
                    for c in w.must_run_causes(obs, e):
                        res.counters.setdefault("must_run_causes_honoured", {})
                        res.counters["must_run_causes_honoured"][c] = res.counters["must_run_causes_honoured"].get(c, 0) + 1
            if why_ok:
                continue
            if w.order_only_cause(obs, e):
                cls = "C18.order-only-triggered-rebuild"
                why = "only an order-only input of it changed or was rebuilt"
            else:
                cls = "C18.rerun-without-cause-%s" % edge_kind(m, e)
                why = "neither its statement nor any of its explicit/implicit/discovered inputs or outputs changed since it last ran"
            add(cls, "%s: %s (%s) executed although %s (commands run: %s)" % (what_prefix, name, edge_kind(m, e), why, ",".join(ran)))
    return ok


def newly_declared_route(w, obs, o):
    """Is the wrong output O upstream of an input that a statement which did not run declares now but did not
    declare when it last ran (with an unchanged command line)?  Returns (kind, statement, input) or None."""
    m = obs["desc"]
    for c in m.reachable(obs["target"]):
        if c.phony or c.name in obs["ran"] or c.name not in obs["lastrun_before"]:
            continue
        e0 = obs["lastrun_before"][c.name][1]
        if e0.command() != c.command():
            continue
        old = set(e0.ins + e0.imp + e0.oo)
        for kind, nodes in (("implicit", c.imp), ("order-only", c.oo)):
            for n in nodes:
                if n in old:
                    continue
                up, todo = set(), [n]
                while todo:
                    x = todo.pop()
                    if x in up:
                        continue
                    up.add(x)
                    p = m.producer(x)
                    if p is not None:
                        todo += p.ins + p.imp + p.oo
                if o in up:
                    return kind, c.name, n
    return None


def last_lines(out, n=3):
    ls = [x for x in out.strip().splitlines() if x.strip()]
    return " / ".join(ls[-n:])[:300]


def null_build(w, obs, what_prefix, add, res, verbose=False):
    """Immediate rebuild of the same target: nothing may run (db modes)."""
    m = obs["desc"]
    o2 = w.build(obs["target"], judge=False)
    res.count("builds")
    res.count("null_builds")
    if verbose:
        print("  null build rc=%d ran=%s" % (o2["rc"], o2["ran"]))
        print(indent(o2["out"]))
    if o2["ran"]:
        res.count("null_builds_that_ran_something")
        order = [e.name for e in m.reachable(obs["target"])]
        first = sorted(o2["ran"], key=lambda n: order.index(n) if n in order else 99)[0]
        add("C18.null-build-reran-%s" % edge_kind(m, m.edge(first)),
            "%s: an immediate second build of %r re-executed %s" % (what_prefix, obs["target"], ",".join(o2["ran"])))
    if o2["rc"] != 0:
        add("C18.null-build-fails", "%s: the immediate second build failed: %s" % (what_prefix, last_lines(o2["out"])))
    return o2


def indent(s):
    return "\n".join("      " + x for x in s.rstrip().splitlines())


def one_history(res, fam, mode, h, verbose=False, tool="llbuild"):
    w = World(fam, mode, tool)
    spec = spec_h(fam, mode, h)
    what = "%s [%s] history '%s'" % (fam.id, mode, " ".join(h))

    def add(cls, text):
        res.violate(cls, text, spec)

    try:
        obs = []
        n = len(h)
        for i, ev in enumerate(h):
            if ev.startswith("b:"):
                o = w.build(ev[2:], judge=(i == n - 1))
                obs.append(o)
                if verbose:
                    print("  %-12s manifest=%s rc=%d ran=%s" % (ev, o["desc"].id, o["rc"], o["ran"]))
                    if i == n - 1:
                        print(indent(o["out"]))
            else:
                w.edit(ev)
                if verbose:
                    print("  %s" % ev)
        last = obs[-1]
        res.count("evaluations")
        res.count("builds", len(obs))
        res.count("commands_executed", sum(len(o["ran"]) for o in obs))
        if any(o["ran"] for o in obs):
            res.count("histories_that_executed_commands")
        if last["ran"]:
            res.count("final_builds_that_executed_something")
        if len(obs) >= 2 and last["ran"]:
            res.count("distinct_nontrivial")
        res.count("successful_final_builds" if last["rc"] == 0 else "failed_final_builds")
        res.max_of("max_history_len", len(h))
        endkey = (fam.id, w.cur, tuple(sorted((p, w.sb.read(p)) for p in w.paths)))
        res.distinct("distinct_end_states_per_shard", endkey)
        if tool != "llbuild":
            if mode_db(mode):
                o2 = w.build(last["target"], judge=False)
                print("  null build rc=%d ran=%s" % (o2["rc"], o2["ran"]))
            return
        converged = judge_build(w, last, h, what, add, res)
        if mode_db(mode):
            m = last["desc"]
            pruned = [n for n in last["expect"].order if n not in last["ran"] and not m.edge(n).phony and any(
                m.producer(i) is not None and m.producer(i).restat and m.producer(i).name in last["ran"]
                for i in m.edge(n).ins + m.edge(n).imp)] if last["expect"].ok else []
            res.count("restat_pruned_dependents", len(pruned))
        if converged and mode_db(mode):
            o2 = null_build(w, last, what, add, res, verbose)
            if len(res.samples) < 5 and len(obs) >= 2 and last["ran"] and not o2["ran"]:
                res.sample({"family": fam.id, "mode": mode, "history": " ".join(h), "ran_in_last_build": last["ran"],
                            "ran_in_null_build": o2["ran"], "outputs": last["expect"].outputs})
        elif not converged:
            res.count("null_check_skipped_final_build_not_converged")
        else:
            res.count("null_check_skipped_nodb_mode")
    finally:
        w.close()


def classes_of(fam, mode, h):
    tmp = Result()
    one_history(tmp, fam, mode, h)
    return {v["class"] for v in tmp.violations}


def minimise(fam, mode, h, cls):
    """Greedy one-event deletion (and --jobs 1 instead of 4) preserving violation class CLS."""
    if mode.startswith("j4"):
        m1 = "j1" + mode[2:]
        if cls in classes_of(fam, m1, h):
            mode = m1
    changed = True
    while changed:
        changed = False
        for i in range(len(h) - 1):
            cand = h[:i] + h[i + 1:]
            if well_formed(fam, cand) and cls in classes_of(fam, mode, cand):
                h = cand
                changed = True
                break
    return mode, h


# --------------------------------------------------------------------------
# failure injection
def failure_items(fams, all_variants, kinds=("fail-before", "fail-after", "term-after")):
    for fam in fams:
        variants = range(len(fam.descs)) if all_variants else [0]
        for vi in variants:
            m = fam.descs[vi]
            for e in m.edges:
                if e.phony:
                    continue
                for kind in kinds:
                    for t in fam.targets:
                        if t and m.producer(t) is None:
                            continue
                        if e.name not in [x.name for x in m.reachable(t)]:
                            continue
                        prefixes = [[]]
                        for s in fam.sources:
                            if m.producer(s) is None:
                                prefixes.append(["b:" + t, "e:" + s])
                        for o in e.outs:
                            prefixes.append(["b:" + t, "x:" + o])
                        if kind in ("term-after", "kill-tool-mid"):
                            prefixes = prefixes[:2]   # death by a fatal signal: fresh tree and the first edited prefix
                        for pre in prefixes:
                            for k in (1, 0):
                                for mode in nx.MODES:
                                    if k == 0 and mode in ("j4db", "j1nodb"):
                                        continue      # keep-going (-k 0) is explored with j1db and j4nodb only
                                    if kind == "kill-tool-mid" and (k == 0 or mode != "j1db"):
                                        continue      # the tool itself is killed: serial, with a database
                                    yield fam, vi, mode, k, e.name, kind, t, pre


def spec_f(fam, vi, mode, k, name, kind, t, pre):
    return "C18f|%s|%s|%s|%d|%s|%s|%s|%s" % (fam.id, fam.descs[vi].id, mode, k, name, kind, t, " ".join(pre))


def one_failure(res, fam, vi, mode, k, name, kind, t, pre, verbose=False, tool="llbuild"):
    w = World(fam, mode, tool)
    spec = spec_f(fam, vi, mode, k, name, kind, t, pre)
    what = "%s/%s [%s -k %d] %s of %s, target %r, after '%s'" % (fam.id, fam.descs[vi].id, mode, k, kind, name, t, " ".join(pre))
    kg = "-keep-going" if k == 0 else ""
    nodb = "" if mode_db(mode) else "-nodb"     # without a database nothing remembers the failure: a class of its own

    def add(cls, text):
        if tool == "llbuild":
            res.violate(cls, text, spec)

    def show(label, o):
        if verbose:
            print("  %-22s rc=%d ran=%s" % (label, o["rc"], o["ran"]))
            print(indent(o["out"]))

    try:
        if k != 1:
            w.sb.extra_args = ["-k", str(k)]
        if vi != 0:
            w.edit("D:" + fam.descs[vi].id)
        m = w.desc
        if not ORACLE.expect(m, w.sb, t).ok:
            res.count("failure_items_skipped_variant_does_not_build_from_scratch")
            return
        for ev in pre:
            if ev.startswith("b:"):
                o = w.build(ev[2:], judge=False)
                res.count("builds")
                show(ev, o)
                if o["rc"] != 0:
                    raise HarnessError("failure prefix build failed: " + what + "\n" + o["out"])
            else:
                w.edit(ev)
        res.count("evaluations")
        tag = m.edge(name).tag
        deps_strong = m.dependents(name, kinds=("ins", "imp"))
        deps_direct = m.dependents(name, kinds=("ins", "imp"), through_phony=False)
        deps_all = m.dependents(name)
        w.set_ctl({tag: kind})

        def failing_build(label, must_run):
            o = w.build(t, judge=False)
            res.count("builds")
            show(label, o)
            if name not in o["ran"]:
                if must_run:
                    add("C18.failed-not-retried-" + edge_kind(m, m.edge(name)) + nodb, "%s: %s failed in the previous build but was not "
                        "executed again by the next build (ran: %s)" % (what, name, ",".join(o["ran"]) or "none"))
                return o, False
            if o["rc"] == 0:
                add("C18.exit-zero-although-command-failed" + kg, "%s: %s exited 1 but the build exit status is 0" % (what, name))
            bad = [d for d in o["ran"] if d in deps_all]
            if bad:
                strong = [d for d in bad if d in deps_strong]
                direct = [d for d in bad if d in deps_direct]
                if direct:
                    add("C18.dependent-ran-after-failure" + kg, "%s: %s failed but its dependents %s were executed (ran: %s)" % (
                        what, name, ",".join(direct), ",".join(o["ran"])))
                elif strong:
                    add("C18.dependent-through-phony-ran-after-failure" + kg, "%s: %s failed but %s, which depend on it through a "
                        "phony statement, were executed (ran: %s)" % (what, name, ",".join(strong), ",".join(o["ran"])))
                else:
                    add("C18.order-only-dependent-ran-after-failure" + kg, "%s: %s failed but %s, which depend on it through "
                        "order-only inputs, were executed (ran: %s)" % (what, name, ",".join(bad), ",".join(o["ran"])))
            return o, True

        o1, reached = failing_build("failing build", False)
        if not reached:
            res.count("failure_not_reached")
            return
        res.count("failing_commands_reached")
        res.count("distinct_nontrivial")
        failing_build("second failing build", True)
        w.set_ctl({})
        ex = ORACLE.expect(m, w.sb, t)
        o3 = w.build(t, judge=True)
        res.count("builds")
        show("build after repair", o3)
        if name not in o3["ran"]:
            add("C18.failed-not-retried-" + edge_kind(m, m.edge(name)) + nodb, "%s: after the repair the build did not execute %s again "
                "(ran: %s)" % (what, name, ",".join(o3["ran"]) or "none"))
        if tool != "llbuild":
            return
        if ex.ok:
            conv = judge_build(w, o3, pre + ["b:" + t], what + " (build after repair)", add, res)
            if conv and mode_db(mode):
                null_build(w, o3, what + " (after repair)", add, res, verbose)
        if len(res.samples) < 6 and res.counters.get("failure_samples", 0) < 2:
            res.count("failure_samples")
            res.sample({"family": fam.id, "variant": fam.descs[vi].id, "mode": mode, "k": k, "failing": name, "kind": kind,
                        "prefix": " ".join(pre), "ran_failing_build": o1["ran"], "ran_after_repair": o3["ran"]})
    finally:
        w.close()


def one_toolkill(res, fam, vi, mode, k, name, kind, t, pre, verbose=False):
    """C04 at the Ninja front end: PRE, then a build in which command NAME half-writes its outputs and SIGKILLs the tool;
    the build continued from that state (database rolled back by SQLite, outputs modified) must give clean-build contents."""
    w = World(fam, mode, "llbuild")
    spec = "C04k|%s|%s|%s|%d|%s|%s|%s|%s" % (fam.id, fam.descs[vi].id, mode, k, name, kind, t, " ".join(pre))
    try:
        if vi != 0:
            w.edit("D:" + fam.descs[vi].id)
        m = w.desc
        if not ORACLE.expect(m, w.sb, t).ok:
            res.count("kill_items_skipped_variant_does_not_build_from_scratch")
            return
        for ev in pre:
            if ev.startswith("b:"):
                o = w.build(ev[2:], judge=False)
                res.count("builds")
                if o["rc"] != 0:
                    raise HarnessError("kill item prefix build failed: " + spec + "\n" + o["out"])
            else:
                w.edit(ev)
        res.count("evaluations")
        e = m.edge(name)
        prior = "the-command-had-a-recorded-result" if pre else "the-command-had-no-recorded-result"
        what = "%s/%s [%s] target %r, after '%s': the tool was SIGKILLed while %s (%s) had written the bytes 'PARTIAL' to its outputs" % (
            fam.id, m.id, mode, t, " ".join(pre), name, edge_kind(m, e))
        w.set_ctl({e.tag: "kill-tool-mid"})
        rc, out, ran = w.sb.build(t, mode)
        res.count("builds")
        if verbose:
            print("  killed build rc=%d ran=%s\n%s" % (rc, ran, indent(out)))
        if e.tag not in ran:
            res.count("kill_not_reached")
            return
        if rc == 0:
            raise HarnessError("the tool survived kill-tool-mid: " + spec + "\n" + out)
        res.count("distinct_nontrivial")
        res.count("tool_kills")
        w.set_ctl({})
        ex = ORACLE.expect(m, w.sb, t)
        rc2, out2, ran2 = w.sb.build(t, mode)
        res.count("builds")
        tags = m.by_tag()
        names2 = [tags[x].name for x in ran2 if x in tags]
        if verbose:
            print("  continued build rc=%d ran=%s\n%s" % (rc2, names2, indent(out2)))
        if not ex.ok:
            return
        if rc2 != 0:
            res.violate("C04.ninja-continued-build-fails-%s-%s" % (edge_kind(m, e), prior),
                        "%s; the continued build failed: %s" % (what, out2[-300:]), spec)
            return
        for n2 in ex.order:
            e2 = m.edge(n2)
            if e2.phony:
                continue
            for o in e2.outs:
                got = w.sb.read(o)
                if got != ex.outputs[o]:
                    res.violate("C04.ninja-continued-build-keeps-half-written-output-%s-%s" % (edge_kind(m, e), prior),
                                "%s; the continued build succeeded (ran: %s) but output %s is %r, a clean build gives %r" % (
                                    what, ",".join(names2) or "none", o, got, ex.outputs[o]), spec)
                    return
        res.count("converged_after_kill")
    finally:
        w.close()


# --------------------------------------------------------------------------
def phases_for(tier):
    allf = F.all_families()
    quickf = [f for f in allf if f.quick]
    if tier == "quick":
        q4 = [f for f in quickf if f.quick4]
        return (quickf, [(quickf, 1, 3, False), (q4, 4, 4, False)], False,
                "%d quick manifest families (%s) with all their variants: every normal-form history of <= 3 events, and of exactly "
                "4 events for %s; failure injection on the base manifest" % (
                    len(quickf), ",".join(f.id for f in quickf), ",".join(f.id for f in q4)))
    deepf = [f for f in allf if f.deep]
    return (allf, [(allf, 1, 4, False), (allf, 3, 3, True), (deepf, 5, 5, False)], True,
            "all %d manifest families with all their variants: every normal-form history of <= 4 events (e:, x:, D:, b:), every "
            "history of exactly 3 events that also uses t: (touch), and histories of exactly 5 events for the %d deep families; "
            "failure injection on every variant" % (len(allf), len(deepf)))


def work_items(tier, only=None, phase=None):
    """Yields (index, kind, payload), simplest first."""
    fams, phases, allv, _ = phases_for(tier)
    if only:
        fams = [f for f in fams if f.id in only]
        phases = [([f for f in fs if f.id in only], a, b, c) for fs, a, b, c in phases]
    if phase == "f":
        phases = []
    if phase == "h":
        fams = []
    idx = 0
    for fs, dmin, dmax, touches in phases:
        for d in range(dmin, dmax + 1):
            for fam in fs:
                for h in histories(fam, d, touches):
                    if touches and not any(e.startswith("t:") for e in h):
                        continue
                    for mode in nx.MODES:
                        yield idx, "h", (fam, mode, h)
                        idx += 1
    for it in failure_items(fams, allv):
        yield idx, "f", it
        idx += 1


def kill_items(tier, only=None):
    """C04 at the Ninja front end: the tool is killed while a command has half-written its outputs."""
    fams, _, allv, _ = phases_for(tier)
    if only:
        fams = [f for f in fams if f.id in only]
    idx = 0
    for it in failure_items(fams, allv, kinds=("kill-tool-mid",)):
        yield idx, "f", it
        idx += 1


# C11 at the Ninja front end: the families in which a statement reports discovered dependencies (histories only; the
# failure items and the other families stay with C18)
C11_FAMILIES = ("depfile", "gendep", "oodep", "latedecl", "genheader", "depmulti")


def run(args, res):
    only = args.extra["families"].split(",") if args.extra.get("families") else None     # development aid
    phase = args.extra.get("phase")
    if args.prop == "C11":
        only = [f for f in C11_FAMILIES if only is None or f in only]
        phase = "h"
    items = kill_items(args.tier, only) if args.prop == "C04" else work_items(args.tier, only, phase)
    for idx, kind, it in items:
        if (idx + args.seed) % args.nshards != args.shard:
            continue
        if args.over_budget():
            res.exhaustive = False
            break
        before = dict(res.per_class)
        nv = len(res.violations)
        if kind == "h":
            fam, mode, h = it
            one_history(res, fam, mode, h)
            res.count("history_items")
            for v in res.violations[nv:]:
                if before.get(v["class"], 0) == 0:
                    m2, h2 = minimise(fam, mode, h, v["class"])
                    if (m2, h2) != (mode, h):
                        tmp = Result()
                        one_history(tmp, fam, m2, h2)
                        for t in tmp.violations:
                            if t["class"] == v["class"]:
                                v["what"], v["replay"] = t["what"], t["replay"]
                                break
        elif it[5] == "kill-tool-mid":
            one_toolkill(res, *it)
            res.count("kill_items")
        else:
            one_failure(res, *it)
            res.count("failure_items")
    res.count("clean_build_crosschecks", ORACLE.checks)
    ORACLE.checks = 0
    res.max_of("max_shard_seconds", int(__import__("time").time() - args.t0))
    res.counters["violations_by_class"] = dict(res.per_class)


def find_family(fid):
    for f in F.all_families():
        if f.id == fid:
            return f
    raise HarnessError("unknown family " + fid)


def replay(args, res):
    spec, _, only = args.replay.partition(" #")
    parts = spec.split("|")
    tools = ["llbuild"] + (["ninja"] if args.extra.get("ninja") else [])
    try:
        for tool in tools:
            print("== %s" % (wx.LLBUILD if tool == "llbuild" else nx.REAL_NINJA + " (second opinion, not part of the verdict)"))
            if parts[0] == "C18h":
                fam = find_family(parts[1])
                h = parts[3].split(" ") if parts[3] else []
                print(fam.descs[0].ninja())
                for ev in h:
                    if ev.startswith("D:"):
                        print("-- variant %s:\n%s" % (ev[2:], fam.descs[fam.by_id[ev[2:]]].ninja()))
                one_history(res if tool == "llbuild" else Result(), fam, parts[2], h, verbose=True, tool=tool)
            elif parts[0] == "C18f":
                fam = find_family(parts[1])
                vi = fam.by_id[parts[2]]
                print(fam.descs[vi].ninja())
                pre = parts[8].split(" ") if len(parts) > 8 and parts[8] else []
                one_failure(res if tool == "llbuild" else Result(), fam, vi, parts[3], int(parts[4]), parts[5], parts[6], parts[7],
                            pre, verbose=True, tool=tool)
            elif parts[0] == "C04k":
                if tool != "llbuild":
                    continue
                fam = find_family(parts[1])
                vi = fam.by_id[parts[2]]
                print(fam.descs[vi].ninja())
                pre = parts[8].split(" ") if len(parts) > 8 and parts[8] else []
                one_toolkill(res, fam, vi, parts[3], int(parts[4]), parts[5], parts[6], parts[7], pre, verbose=True)
            else:
                raise HarnessError("unknown replay spec " + spec)
    finally:
        if only:
            if only.startswith("C11."):
                only = "C18." + only[4:]
            res.violations = [v for v in res.violations if v["class"] == only]


def main():
    args = Args(sys.argv)
    res = Result()
    res.assumptions = list(ASSUMPTIONS)
    try:
        if args.prop not in ("C18", "C04", "C11"):
            raise HarnessError("worldx3 decides C18 (and the Ninja part of C04), not %r" % args.prop)
        global PROP
        PROP = args.prop
        if not os.path.exists(wx.LLBUILD) or not os.path.exists(nx.NCMD):
            raise HarnessError("missing %s or %s" % (wx.LLBUILD, nx.NCMD))
        if args.replay:
            replay(args, res)
        else:
            run(args, res)
            _, phases, _, text = phases_for(args.tier)
            res.strings["rule"] = (
                "normal-form histories over {e: rewrite a source, t: touch a source, x: delete an output, D: switch to a manifest "
                "variant, b: build a target or the default} that end in a build (within a segment between builds at most one event "
                "per file and one D:), x modes {--jobs 1, --jobs 4} x {--db, --no-db}; each history is replayed from scratch in a "
                "fresh sandbox, one llbuild process per build, and its LAST build is judged (contents = reference, ordering, "
                "must-run causes, rerun-without-cause, then an immediate null build in the db modes); " + text +
                "; failure items: (variant, failing command, fail-before|fail-after|term-after (the shell running the command dies of SIGTERM after the outputs were written)|kill-tool-mid (the command half-writes its outputs and SIGKILLs the build tool: the continued build must not keep them), target, prefix in {fresh, build+edit of each "
                "source, build+delete of its output}, -k 1|0, mode): failing build, second failing build, repair, build, null build. "
                "evaluations = histories + failure items executed; distinct_nontrivial = histories with >= 2 builds whose last "
                "build executed at least one command + failure items in which the failing command was actually reached")
            res.counters["bound_depth"] = max(p[2] for p in phases)
    except HarnessError as e:
        print("HARNESS ERROR: %s" % e, file=sys.stderr)
        traceback.print_exc()
        wx.cleanup()
        return 3
    except Exception:
        traceback.print_exc()
        wx.cleanup()
        return 3
    wx.cleanup()
    if args.prop == "C11":
        # the same oracles, reported under the property this part serves
        for v in res.violations:
            if v["class"].startswith("C18."):
                v["class"] = "C11." + v["class"][4:]
                v["replay"]["spec"] = v["replay"]["spec"].replace(" #C18.", " #C11.")
        res.per_class = {("C11." + k[4:] if k.startswith("C18.") else k): n for k, n in res.per_class.items()}
        if "violations_by_class" in res.counters:
            res.counters["violations_by_class"] = dict(res.per_class)
    res.write(args.out)
    if args.replay:
        print("replay: %d violation(s)" % len(res.violations))
        for v in res.violations:
            print("  %s: %s" % (v["class"], v["what"]))
    return 1 if res.violations else 0


if __name__ == "__main__":
    sys.exit(main())

/* ncmd: the deterministic "compiler" of the worldx3 (C18, Ninja) explorer.
 *
 * Same protocol as ../worldx/vcmd.c (exec.log, .vclock logical clock, .vctl
 * control file), restricted to plain files, plus a restat mode:
 *
 *   ncmd cat TAG [-r] [-d DEPFILE] [-x EXTRA]... OUT... -- IN...
 *       payload = TAG '(' contents(IN1) ',' ... [';' EXTRA '=' contents(EXTRA)]... ')'
 *       written to every OUT and stamped with the next logical-clock value.
 *       A missing IN is an error (exit 1); a missing EXTRA contributes '!'.
 *       -r          restat behaviour: an OUT whose current content already equals
 *                   the payload is left completely untouched (mtime kept)
 *       -x EXTRA    an input that is not on the command line as $in
 *       -d DEPFILE  write "OUT1: EXTRA..." (Makefile syntax) naming every EXTRA
 *
 * Side effects shared with the driver, all in the cwd (= sandbox root):
 *   exec.log : one line "TAG\n" appended (O_APPEND, single write) at start
 *   .vclock  : flock-protected decimal counter; mtime = 1e9 s + counter * 1 ms
 *   .vctl    : control file (not part of the manifest): lines "TAG KIND" with KIND in
 *                fail-before   exit 1 before writing anything
 *                fail-after    write all outputs (and the depfile), then exit 1
 *                kill-tool-mid write the bytes "PARTIAL" to every output, then SIGKILL the build tool (the process above the
 *                              shell that runs this command) and this process: the build dies with a half-written output
 *                term-after    write all outputs, then die of SIGTERM together with the shell that runs
 *                              the command line (the process the build tool waits for)
 * Exit codes: 0 ok, 1 deliberate/IO failure, 2 usage.
 */
#define _GNU_SOURCE
#include <errno.h>
#include <fcntl.h>
#include <signal.h>
#include <stdio.h>
#include <stdlib.h>
#include <string.h>
#include <sys/file.h>
#include <sys/stat.h>
#include <sys/types.h>
#include <unistd.h>

#define BASE_SEC 1000000000LL

struct buf { char* p; size_t n, cap; };
static void bput(struct buf* b, const char* s, size_t n) {
  if (b->n + n + 1 > b->cap) {
    b->cap = (b->n + n + 1) * 2 + 64;
    b->p = realloc(b->p, b->cap);
    if (!b->p) _exit(1);
  }
  memcpy(b->p + b->n, s, n);
  b->n += n;
  b->p[b->n] = 0;
}
static void bputs(struct buf* b, const char* s) { bput(b, s, strlen(s)); }

static void die(const char* what, const char* arg) {
  dprintf(2, "ncmd: %s: %s: %s\n", what, arg ? arg : "", strerror(errno));
  _exit(1);
}

static long long tick(void) {
  char b[32];
  int fd = open(".vclock", O_RDWR | O_CREAT, 0644);
  if (fd < 0) die("open", ".vclock");
  if (flock(fd, LOCK_EX) != 0) die("flock", ".vclock");
  ssize_t r = pread(fd, b, sizeof b - 1, 0);
  long long v = 0;
  if (r > 0) { b[r] = 0; v = atoll(b); }
  ++v;
  int n = snprintf(b, sizeof b, "%019lld\n", v);
  if (pwrite(fd, b, n, 0) != n) die("pwrite", ".vclock");
  flock(fd, LOCK_UN);
  close(fd);
  return v;
}

static void stamp(const char* path) {
  long long t = tick();
  struct timespec ts[2];
  ts[0].tv_sec = ts[1].tv_sec = BASE_SEC + t / 1000;
  ts[0].tv_nsec = ts[1].tv_nsec = (t % 1000) * 1000000L;
  if (utimensat(AT_FDCWD, path, ts, 0) != 0) die("utimensat", path);
}

/* returns 0 if missing */
static int slurp(const char* path, struct buf* out) {
  int fd = open(path, O_RDONLY);
  if (fd < 0) return 0;
  char b[4096];
  ssize_t r;
  while ((r = read(fd, b, sizeof b)) > 0) bput(out, b, r);
  close(fd);
  return 1;
}

static void write_file(const char* path, const char* data, size_t n) {
  int fd = open(path, O_WRONLY | O_CREAT | O_TRUNC, 0644);
  if (fd < 0) die("cannot write output", path);
  size_t off = 0;
  while (off < n) {
    ssize_t w = write(fd, data + off, n - off);
    if (w < 0) die("write", path);
    off += w;
  }
  close(fd);
  stamp(path);
}

static const char* control(const char* tag) {
  static struct buf c;
  c.n = 0;
  if (!slurp(".vctl", &c) || !c.p) return NULL;
  char* save = NULL;
  for (char* line = strtok_r(c.p, "\n", &save); line; line = strtok_r(NULL, "\n", &save)) {
    char* s2 = NULL;
    char* t = strtok_r(line, " ", &s2);
    if (!t || strcmp(t, tag)) continue;
    char* k = strtok_r(NULL, " ", &s2);
    if (k) return k;
  }
  return NULL;
}

int main(int argc, char** argv) {
  if (argc < 3 || strcmp(argv[1], "cat")) return 2;
  const char* tag = argv[2];
  int restat = 0, nextra = 0;
  const char* depfile = NULL;
  const char* extras[16];
  int i = 3;
  for (; i < argc; ++i) {
    if (!strcmp(argv[i], "-r")) restat = 1;
    else if (!strcmp(argv[i], "-d") && i + 1 < argc) depfile = argv[++i];
    else if (!strcmp(argv[i], "-x") && i + 1 < argc) { if (nextra < 16) extras[nextra++] = argv[++i]; else ++i; }
    else break;
  }
  int out0 = i, sep = -1;
  for (; i < argc; ++i) if (!strcmp(argv[i], "--")) { sep = i; break; }
  if (sep < 0) sep = argc;

  {
    char line[256];
    int fd = open("exec.log", O_WRONLY | O_CREAT | O_APPEND, 0644);
    if (fd < 0) die("open", "exec.log");
    int n = snprintf(line, sizeof line, "%s\n", tag);
    if (write(fd, line, n) != n) die("write", "exec.log");
    close(fd);
  }

  const char* kind = control(tag);
  int fail_after = 0, term_after = 0, kill_tool_mid = 0;
  if (kind) {
    if (!strcmp(kind, "fail-before")) { dprintf(2, "ncmd: %s: directed failure\n", tag); return 1; }
    if (!strcmp(kind, "fail-after")) fail_after = 1;
    if (!strcmp(kind, "term-after")) term_after = 1;
    if (!strcmp(kind, "kill-tool-mid")) kill_tool_mid = 1;
  }

  struct buf payload = {0};
  bputs(&payload, tag);
  bputs(&payload, "(");
  for (int k = sep + 1, first = 1; k < argc; ++k, first = 0) {
    if (!first) bputs(&payload, ",");
    if (!slurp(argv[k], &payload)) { dprintf(2, "ncmd: %s: missing input %s\n", tag, argv[k]); return 1; }
  }
  for (int k = 0; k < nextra; ++k) {
    bputs(&payload, ";");
    bputs(&payload, extras[k]);
    bputs(&payload, "=");
    if (!slurp(extras[k], &payload)) bputs(&payload, "!");
  }
  bputs(&payload, ")");

  if (kill_tool_mid) {
    for (int k = out0; k < sep; ++k) write_file(argv[k], "PARTIAL", 7);
    /* the tool is the parent of the shell that runs this command line (or the parent itself if the shell exec'd us) */
    pid_t pp = getppid(), tool = pp;
    char path[64], buf[256] = {0};
    snprintf(path, sizeof path, "/proc/%d/comm", (int)pp);
    int fd = open(path, O_RDONLY);
    if (fd >= 0) { if (read(fd, buf, sizeof buf - 1) < 0) buf[0] = 0; close(fd); }
    if (!strncmp(buf, "sh", 2) || !strncmp(buf, "dash", 4)) {
      snprintf(path, sizeof path, "/proc/%d/stat", (int)pp);
      fd = open(path, O_RDONLY);
      memset(buf, 0, sizeof buf);
      if (fd >= 0) { if (read(fd, buf, sizeof buf - 1) < 0) buf[0] = 0; close(fd); }
      char* rp = strrchr(buf, ')');
      int gp = 0;
      char st;
      if (rp && sscanf(rp + 1, " %c %d", &st, &gp) == 2 && gp > 1) tool = (pid_t)gp;
    }
    dprintf(2, "ncmd: %s: killing the build tool (pid %d) with a half-written output\n", tag, (int)tool);
    kill(tool, SIGKILL);
    if (tool != pp) kill(pp, SIGKILL);
    raise(SIGKILL);
    pause();
  }
  for (int k = out0; k < sep; ++k) {
    if (restat) {
      struct buf cur = {0};
      if (slurp(argv[k], &cur) && cur.n == payload.n && (cur.n == 0 || !memcmp(cur.p, payload.p, cur.n))) continue;
    }
    write_file(argv[k], payload.p, payload.n);
  }

  if (depfile) {
    struct buf d = {0};
    bputs(&d, out0 < sep ? argv[out0] : "x");
    bputs(&d, ":");
    for (int k = 0; k < nextra; ++k) { bputs(&d, " "); bputs(&d, extras[k]); }
    bputs(&d, "\n");
    write_file(depfile, d.p, d.n);
  }

  if (fail_after) { dprintf(2, "ncmd: %s: directed failure after writing outputs\n", tag); return 1; }
  if (term_after) {
    /* /bin/sh -c does not exec its last command here, so the process the build tool waits for is the shell */
    char path[64], comm[32] = {0};
    pid_t pp = getppid();
    snprintf(path, sizeof path, "/proc/%d/comm", (int)pp);
    int fd = open(path, O_RDONLY);
    if (fd >= 0) { if (read(fd, comm, sizeof comm - 1) < 0) comm[0] = 0; close(fd); }
    dprintf(2, "ncmd: %s: directed death by SIGTERM after writing outputs\n", tag);
    if (!strncmp(comm, "sh", 2) || !strncmp(comm, "dash", 4)) kill(pp, SIGTERM);
    signal(SIGTERM, SIG_DFL);
    raise(SIGTERM);
    pause();
  }
  return 0;
}
